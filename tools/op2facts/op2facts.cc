// op2facts: clang-14 LibTooling facts extractor for the OP2Utility static checks.
//
// For one translation unit it writes one JSON document holding, for every declaration
// whose *real* path lies under one of the --root prefixes:
//   records   : layout (size, field bit offsets / widths / types), bases, ctors, methods
//   enums     : underlying type, enumerators
//   vars      : namespace-scope / static-member constants with evaluated values
//   functions : signature, flags, constructor initialisers, the full statement tree as a
//               flat node table (resolved callees, member paths, types, integer widths,
//               evaluated constants), and clang's CFG (blocks, elements -> node ids,
//               terminator condition, ordered successors)
// Nothing is executed; everything is read off the type-checked AST.

#include "clang/AST/ASTConsumer.h"
#include "clang/AST/ASTContext.h"
#include "clang/AST/RecordLayout.h"
#include "clang/AST/RecursiveASTVisitor.h"
#include "clang/AST/ParentMapContext.h"
#include "clang/Analysis/CFG.h"
#include "clang/Frontend/CompilerInstance.h"
#include "clang/Frontend/FrontendAction.h"
#include "clang/Tooling/CommonOptionsParser.h"
#include "clang/Tooling/Tooling.h"
#include "llvm/Support/CommandLine.h"
#include "llvm/Support/FileSystem.h"
#include "llvm/Support/JSON.h"
#include "llvm/Support/Path.h"
#include "llvm/Support/raw_ostream.h"

#include <map>
#include <set>
#include <string>
#include <vector>

using namespace clang;
using namespace clang::tooling;
namespace json = llvm::json;

static llvm::cl::OptionCategory Cat("op2facts options");
static llvm::cl::list<std::string> Roots("root", llvm::cl::desc("real-path prefix counted as 'in the repository'"),
                                         llvm::cl::cat(Cat));
static llvm::cl::opt<std::string> OutPath("o", llvm::cl::desc("output JSON file"), llvm::cl::cat(Cat),
                                          llvm::cl::Required);

namespace {

struct Extractor : public RecursiveASTVisitor<Extractor> {
  ASTContext &Ctx;
  SourceManager &SM;
  PrintingPolicy PP;
  json::Array Records, Enums, Vars, Functions;
  std::set<std::string> SeenRecords, SeenEnums, SeenVars, SeenFuncs;
  std::map<std::string, std::string> RealPathCache;
  std::map<const Decl *, int> DeclIds;

  explicit Extractor(ASTContext &C) : Ctx(C), SM(C.getSourceManager()), PP(C.getLangOpts()) {
    PP.SuppressTagKeyword = true;
    PP.Bool = true;
    PP.SuppressUnwrittenScope = false;
  }

  bool shouldVisitTemplateInstantiations() const { return true; }
  bool shouldVisitImplicitCode() const { return true; }

  // ---------------------------------------------------------------- locations
  std::string realPath(SourceLocation L) {
    if (L.isInvalid()) return "";
    L = SM.getExpansionLoc(L);
    PresumedLoc P = SM.getPresumedLoc(L);
    if (P.isInvalid()) return "";
    std::string F = P.getFilename();
    auto It = RealPathCache.find(F);
    if (It != RealPathCache.end()) return It->second;
    llvm::SmallString<256> Real;
    std::string R = F;
    if (!llvm::sys::fs::real_path(F, Real)) R = std::string(Real.str());
    RealPathCache[F] = R;
    return R;
  }
  bool inRepo(SourceLocation L) {
    std::string P = realPath(L);
    if (P.empty()) return false;
    for (auto &R : Roots)
      if (P.compare(0, R.size(), R) == 0) return true;
    return false;
  }
  unsigned line(SourceLocation L) { return SM.getExpansionLineNumber(L); }
  json::Object locObj(SourceLocation L) {
    json::Object O;
    O["file"] = realPath(L);
    O["line"] = (int64_t)line(L);
    return O;
  }

  int declId(const Decl *D) {
    if (!D) return -1;
    D = D->getCanonicalDecl();
    auto It = DeclIds.find(D);
    if (It != DeclIds.end()) return It->second;
    int N = (int)DeclIds.size() + 1;
    DeclIds[D] = N;
    return N;
  }

  // ---------------------------------------------------------------- types
  std::string typeStr(QualType T) { return T.getAsString(PP); }
  std::string canonStr(QualType T) { return T.getCanonicalType().getAsString(PP); }

  void addTypeInfo(json::Object &O, QualType T, const char *Prefix = "") {
    std::string P(Prefix);
    if (T.isNull()) return;
    O[P + "t"] = typeStr(T);
    O[P + "ct"] = canonStr(T);
    QualType C = T.getCanonicalType().getNonReferenceType();
    if (C->isDependentType()) return;
    if (C->isIntegralOrEnumerationType() && !C->isIncompleteType()) {
      O[P + "iw"] = (int64_t)Ctx.getIntWidth(C);
      O[P + "is"] = C->isSignedIntegerOrEnumerationType();
      if (C->isEnumeralType()) O[P + "enum"] = true;
      if (C->isBooleanType()) O[P + "bool"] = true;
    }
    // typedef sugar chain (for units analysis): first typedef name on the way down
    if (const auto *TT = T.getNonReferenceType()->getAs<TypedefType>())
      O[P + "td"] = TT->getDecl()->getQualifiedNameAsString();
  }

  std::string funcKey(const FunctionDecl *FD) {
    if (!FD) return "";
    std::string S;
    llvm::raw_string_ostream OS(S);
    FD->getNameForDiagnostic(OS, PP, true);
    OS << "(";
    bool First = true;
    for (const ParmVarDecl *P : FD->parameters()) {
      if (!First) OS << ",";
      First = false;
      OS << canonStr(P->getType());
    }
    OS << ")";
    if (const auto *MD = dyn_cast<CXXMethodDecl>(FD))
      if (MD->isConst()) OS << "const";
    OS.flush();
    // lambdas and local classes: qualify by location
    if (const auto *MD = dyn_cast<CXXMethodDecl>(FD))
      if (MD->getParent()->isLambda())
        S += "@" + llvm::sys::path::filename(realPath(MD->getParent()->getLocation())).str() + ":" +
             std::to_string(line(MD->getParent()->getLocation()));
    return S;
  }

  std::string recordName(const RecordDecl *RD) {
    if (!RD) return "";
    std::string S;
    llvm::raw_string_ostream OS(S);
    RD->getNameForDiagnostic(OS, PP, true);
    OS.flush();
    return S;
  }

  json::Value apvalueToJson(const APValue &V, QualType T) {
    switch (V.getKind()) {
    case APValue::Int:
      return json::Value((int64_t)V.getInt().getExtValue());
    case APValue::Float:
      return json::Value(V.getFloat().convertToDouble());
    case APValue::Array: {
      json::Array A;
      QualType ET;
      if (const auto *AT = Ctx.getAsArrayType(T)) ET = AT->getElementType();
      unsigned N = V.getArraySize(), I = V.getArrayInitializedElts();
      for (unsigned K = 0; K < N; ++K) {
        const APValue &E = K < I ? V.getArrayInitializedElt(K) : V.getArrayFiller();
        if (K >= I && !V.hasArrayFiller()) {
          A.push_back(nullptr);
          continue;
        }
        A.push_back(apvalueToJson(E, ET));
      }
      return json::Value(std::move(A));
    }
    case APValue::Struct: {
      json::Object O;
      const RecordDecl *RD = T->getAsRecordDecl();
      if (RD) {
        unsigned K = 0;
        for (const FieldDecl *F : RD->fields()) {
          if (K < V.getStructNumFields()) O[F->getNameAsString()] = apvalueToJson(V.getStructField(K), F->getType());
          ++K;
        }
      }
      return json::Value(std::move(O));
    }
    default:
      return json::Value(nullptr);
    }
  }

  // ---------------------------------------------------------------- enums / records / vars
  void emitEnum(const EnumDecl *ED) {
    ED = ED->getDefinition();
    if (!ED || !inRepo(ED->getLocation())) return;
    std::string Q = ED->getQualifiedNameAsString();
    if (!SeenEnums.insert(Q).second) return;
    json::Object O;
    O["qn"] = Q;
    O["loc"] = locObj(ED->getLocation());
    O["scoped"] = ED->isScoped();
    O["fixed"] = ED->isFixed();
    QualType U = ED->getIntegerType();
    if (!U.isNull()) {
      O["underlying"] = canonStr(U);
      O["iw"] = (int64_t)Ctx.getIntWidth(U);
      O["is"] = U->isSignedIntegerType();
    }
    O["num_positive_bits"] = (int64_t)ED->getNumPositiveBits();
    O["num_negative_bits"] = (int64_t)ED->getNumNegativeBits();
    json::Array Es;
    for (const EnumConstantDecl *E : ED->enumerators()) {
      json::Object EO;
      EO["name"] = E->getNameAsString();
      EO["value"] = (int64_t)E->getInitVal().getExtValue();
      Es.push_back(std::move(EO));
    }
    O["enumerators"] = std::move(Es);
    Enums.push_back(std::move(O));
  }

  void emitRecord(const CXXRecordDecl *RD) {
    if (!RD) return;
    RD = RD->getDefinition();
    if (!RD || RD->isDependentType() || RD->isInvalidDecl() || RD->isLambda()) return;
    if (!inRepo(RD->getLocation())) return;
    std::string Q = recordName(RD);
    if (!SeenRecords.insert(Q).second) return;
    json::Object O;
    O["qn"] = Q;
    O["loc"] = locObj(RD->getLocation());
    O["kind"] = RD->getKindName().str();
    const ASTRecordLayout &L = Ctx.getASTRecordLayout(RD);
    O["size_bits"] = (int64_t)Ctx.toBits(L.getSize());
    O["align_bits"] = (int64_t)Ctx.toBits(L.getAlignment());
    O["data_size_bits"] = (int64_t)Ctx.toBits(L.getDataSize());
    O["trivially_copyable"] = RD->isTriviallyCopyable();
    O["standard_layout"] = RD->isStandardLayout();
    O["polymorphic"] = RD->isPolymorphic();
    O["aggregate"] = RD->isAggregate();
    O["has_user_provided_default_ctor"] = RD->hasUserProvidedDefaultConstructor();
    O["has_default_ctor"] = RD->hasDefaultConstructor();
    O["has_trivial_default_ctor"] = RD->hasTrivialDefaultConstructor();
    O["has_user_declared_ctor"] = RD->hasUserDeclaredConstructor();
    json::Array Bases;
    for (const CXXBaseSpecifier &B : RD->bases()) {
      json::Object BO;
      const CXXRecordDecl *BD = B.getType()->getAsCXXRecordDecl();
      BO["qn"] = BD ? recordName(BD) : typeStr(B.getType());
      BO["virtual"] = B.isVirtual();
      if (BD && !B.isVirtual()) BO["offset_bits"] = (int64_t)Ctx.toBits(L.getBaseClassOffset(BD));
      Bases.push_back(std::move(BO));
    }
    O["bases"] = std::move(Bases);
    json::Array Fields;
    unsigned Idx = 0;
    for (const FieldDecl *F : RD->fields()) {
      json::Object FO;
      FO["name"] = F->getNameAsString();
      FO["index"] = (int64_t)Idx;
      FO["line"] = (int64_t)line(F->getLocation());
      FO["access"] = accessStr(F->getAccess());
      addTypeInfo(FO, F->getType());
      FO["offset_bits"] = (int64_t)L.getFieldOffset(Idx);
      QualType FT = F->getType();
      FO["bitfield"] = F->isBitField();
      if (F->isBitField())
        FO["width_bits"] = (int64_t)F->getBitWidthValue(Ctx);
      else if (!FT->isIncompleteType() && !FT->isReferenceType())
        FO["width_bits"] = (int64_t)Ctx.getTypeSize(FT);
      else if (FT->isReferenceType())
        FO["width_bits"] = (int64_t)Ctx.getTypeSize(Ctx.VoidPtrTy);
      FO["is_const"] = FT.isConstQualified();
      FO["is_reference"] = FT->isReferenceType();
      FO["is_pointer"] = FT->isPointerType();
      FO["mutable"] = F->isMutable();
      if (FT->isPointerType() || FT->isReferenceType()) {
        QualType PT = FT->getPointeeType();
        FO["pointee"] = canonStr(PT);
        FO["pointee_const"] = PT.isConstQualified();
        if (const CXXRecordDecl *PR = PT->getAsCXXRecordDecl()) FO["pointee_record"] = recordName(PR);
      }
      if (const CXXRecordDecl *FR = FT->getAsCXXRecordDecl()) FO["record"] = recordName(FR);
      if (const auto *AT = Ctx.getAsConstantArrayType(FT)) {
        FO["array_len"] = (int64_t)AT->getSize().getZExtValue();
        json::Object EO;
        addTypeInfo(EO, AT->getElementType());
        if (const CXXRecordDecl *ER = AT->getElementType()->getAsCXXRecordDecl()) EO["record"] = recordName(ER);
        FO["elem"] = std::move(EO);
      }
      if (const auto *ET = FT->getAs<EnumType>()) FO["enum_qn"] = ET->getDecl()->getQualifiedNameAsString();
      FO["has_init"] = F->hasInClassInitializer();
      if (F->hasInClassInitializer() && F->getInClassInitializer()) {
        Expr::EvalResult R;
        const Expr *IE = F->getInClassInitializer();
        if (!IE->isValueDependent() && IE->EvaluateAsRValue(R, Ctx) && !R.HasSideEffects)
          FO["init_value"] = apvalueToJson(R.Val, FT);
      }
      Fields.push_back(std::move(FO));
      ++Idx;
    }
    O["fields"] = std::move(Fields);
    json::Array Methods;
    for (const CXXMethodDecl *M : RD->methods()) {
      json::Object MO;
      MO["key"] = funcKey(M);
      MO["name"] = M->getNameAsString();
      MO["const"] = M->isConst();
      MO["virtual"] = M->isVirtual();
      MO["pure"] = M->isPure();
      MO["static"] = M->isStatic();
      MO["access"] = accessStr(M->getAccess());
      MO["implicit"] = M->isImplicit();
      MO["defaulted"] = M->isDefaulted();
      MO["deleted"] = M->isDeleted();
      MO["ctor"] = isa<CXXConstructorDecl>(M);
      if (const auto *CD = dyn_cast<CXXConstructorDecl>(M)) {
        MO["default_ctor"] = CD->isDefaultConstructor();
        MO["copy_ctor"] = CD->isCopyConstructor();
        MO["move_ctor"] = CD->isMoveConstructor();
      }
      MO["has_body"] = M->doesThisDeclarationHaveABody() || (M->getDefinition() != nullptr);
      addTypeInfo(MO, M->getReturnType(), "ret_");
      json::Array Ov;
      for (const CXXMethodDecl *OM : M->overridden_methods()) Ov.push_back(funcKey(OM));
      MO["overrides"] = std::move(Ov);
      Methods.push_back(std::move(MO));
    }
    O["methods"] = std::move(Methods);
    Records.push_back(std::move(O));
  }

  static const char *accessStr(AccessSpecifier A) {
    switch (A) {
    case AS_public: return "public";
    case AS_protected: return "protected";
    case AS_private: return "private";
    default: return "none";
    }
  }

  void emitVar(const VarDecl *VD) {
    if (!VD || !inRepo(VD->getLocation())) return;
    if (VD->getType()->isDependentType()) return;
    if (!(VD->isFileVarDecl() || VD->isStaticDataMember())) return;
    std::string Q = VD->getQualifiedNameAsString();
    if (const auto *P = dyn_cast_or_null<ClassTemplateSpecializationDecl>(VD->getDeclContext()))
      Q = recordName(P) + "::" + VD->getNameAsString();
    if (SeenVars.count(Q) && !VD->hasInit()) return;
    const VarDecl *Def = VD;
    const Expr *Init = VD->getAnyInitializer(Def);
    json::Object O;
    O["qn"] = Q;
    O["loc"] = locObj(VD->getLocation());
    addTypeInfo(O, VD->getType());
    O["constexpr"] = VD->isConstexpr();
    O["const"] = VD->getType().isConstQualified();
    if (const CXXRecordDecl *R = VD->getType()->getAsCXXRecordDecl()) O["record"] = recordName(R);
    if (Init && !Init->isValueDependent()) {
      if (const APValue *V = Def->evaluateValue()) {
        O["value"] = apvalueToJson(*V, VD->getType());
      } else {
        Expr::EvalResult R;
        if (Init->EvaluateAsRValue(R, Ctx) && !R.HasSideEffects) O["value"] = apvalueToJson(R.Val, VD->getType());
      }
      if (const auto *SL = dyn_cast<StringLiteral>(Init->IgnoreParenImpCasts())) {
        json::Array B;
        for (unsigned char Ch : SL->getBytes()) B.push_back((int64_t)Ch);
        O["string_bytes"] = std::move(B);
      }
    }
    if (!O.get("value") && !O.get("string_bytes") && SeenVars.count(Q)) return;
    SeenVars.insert(Q);
    Vars.push_back(std::move(O));
  }

  // ---------------------------------------------------------------- function bodies
  struct FnCtx {
    json::Array Nodes;
    std::map<const Stmt *, int> Ids;
    std::vector<const LambdaExpr *> Lambdas;
  };

  int nodeFor(FnCtx &F, const Stmt *S) {
    if (!S) return -1;
    auto It = F.Ids.find(S);
    if (It != F.Ids.end()) return It->second;
    int Id = (int)F.Nodes.size();
    F.Ids[S] = Id;
    F.Nodes.push_back(nullptr); // placeholder
    json::Object O = describe(F, S);
    O["id"] = Id;
    F.Nodes[Id] = std::move(O);
    return Id;
  }

  void describeDeclRef(json::Object &O, const ValueDecl *D) {
    if (!D) return;
    O["d"] = declId(D);
    O["n"] = D->getNameAsString();
    if (isa<ParmVarDecl>(D)) {
      O["dk"] = "param";
      O["pi"] = (int64_t)cast<ParmVarDecl>(D)->getFunctionScopeIndex();
    } else if (const auto *VD = dyn_cast<VarDecl>(D)) {
      if (VD->isLocalVarDecl())
        O["dk"] = VD->isStaticLocal() ? "staticlocal" : "local";
      else {
        O["dk"] = "global";
        O["qn"] = VD->getQualifiedNameAsString();
      }
    } else if (const auto *ECD = dyn_cast<EnumConstantDecl>(D)) {
      O["dk"] = "enumconst";
      O["qn"] = ECD->getQualifiedNameAsString();
      O["v"] = (int64_t)ECD->getInitVal().getExtValue();
    } else if (const auto *FD = dyn_cast<FunctionDecl>(D)) {
      O["dk"] = "func";
      O["fn"] = funcKey(FD);
      O["fq"] = FD->getQualifiedNameAsString();
    } else if (isa<FieldDecl>(D)) {
      O["dk"] = "field";
    } else if (isa<BindingDecl>(D)) {
      O["dk"] = "binding";
    } else {
      O["dk"] = "other";
    }
  }

  void describeCallee(json::Object &O, const FunctionDecl *FD) {
    if (!FD) return;
    O["fn"] = funcKey(FD);
    O["fq"] = FD->getQualifiedNameAsString();
    O["fname"] = FD->getNameAsString();
    O["callee_in_repo"] = inRepo(FD->getLocation());
    if (const auto *MD = dyn_cast<CXXMethodDecl>(FD)) {
      O["virt"] = MD->isVirtual();
      O["mconst"] = MD->isConst();
      O["mstatic"] = MD->isStatic();
      O["mrec"] = recordName(MD->getParent());
    }
    addTypeInfo(O, FD->getReturnType(), "ret_");
    json::Array PT;
    for (const ParmVarDecl *P : FD->parameters()) {
      json::Object PO;
      addTypeInfo(PO, P->getType());
      PO["ref"] = P->getType()->isReferenceType();
      PO["const_ref"] = P->getType()->isReferenceType() && P->getType()->getPointeeType().isConstQualified();
      PO["ptr"] = P->getType()->isPointerType();
      if (P->getType()->isPointerType()) PO["const_ptr"] = P->getType()->getPointeeType().isConstQualified();
      PT.push_back(std::move(PO));
    }
    O["params"] = std::move(PT);
    if (const TemplateArgumentList *TAL = FD->getTemplateSpecializationArgs()) {
      json::Array TA;
      for (const TemplateArgument &A : TAL->asArray()) {
        json::Object AO;
        if (A.getKind() == TemplateArgument::Type) {
          addTypeInfo(AO, A.getAsType());
          QualType AT = A.getAsType();
          if (!AT->isDependentType() && !AT->isIncompleteType() && !AT->isFunctionType())
            AO["size_bits"] = (int64_t)Ctx.getTypeSize(AT);
          if (const CXXRecordDecl *R = AT->getAsCXXRecordDecl()) AO["record"] = recordName(R);
        } else if (A.getKind() == TemplateArgument::Integral) {
          AO["int"] = (int64_t)A.getAsIntegral().getExtValue();
        }
        TA.push_back(std::move(AO));
      }
      O["targs"] = std::move(TA);
    }
  }

  json::Object describe(FnCtx &F, const Stmt *S) {
    json::Object O;
    O["k"] = S->getStmtClassName();
    O["l"] = (int64_t)line(S->getBeginLoc());
    {
      std::string RP = realPath(S->getBeginLoc());
      O["f"] = llvm::sys::path::filename(RP).str();
    }
    if (const auto *E = dyn_cast<Expr>(S)) {
      addTypeInfo(O, E->getType());
      if (E->isLValue()) O["lv"] = true;
      if (const CXXRecordDecl *R = E->getType()->getAsCXXRecordDecl()) O["rec"] = recordName(R);
      if (!E->isValueDependent() && !E->isTypeDependent() && E->getType()->isIntegralOrEnumerationType() &&
          !isa<InitListExpr>(E)) {
        Expr::EvalResult R;
        if (E->EvaluateAsInt(R, Ctx, Expr::SE_NoSideEffects)) {
          llvm::APSInt V = R.Val.getInt();
          if (V.isUnsigned() && V.getActiveBits() > 63)
            O["cv"] = llvm::toString(V, 10);
          else
            O["cv"] = (int64_t)V.getExtValue();
        }
      }
    }
    json::Array Kids;
    auto kid = [&](const Stmt *C) -> int {
      int I = nodeFor(F, C);
      return I;
    };
    auto defaultKids = [&]() {
      for (const Stmt *C : S->children()) Kids.push_back(kid(C));
    };

    if (const auto *IL = dyn_cast<IntegerLiteral>(S)) {
      llvm::APInt V = IL->getValue();
      if (V.getActiveBits() > 63) O["v"] = llvm::toString(V, 10, false);
      else O["v"] = (int64_t)V.getZExtValue();
    } else if (const auto *CL = dyn_cast<CharacterLiteral>(S)) {
      O["v"] = (int64_t)CL->getValue();
    } else if (const auto *BL = dyn_cast<CXXBoolLiteralExpr>(S)) {
      O["v"] = BL->getValue() ? 1 : 0;
    } else if (const auto *SL = dyn_cast<StringLiteral>(S)) {
      json::Array B;
      for (unsigned char Ch : SL->getBytes()) B.push_back((int64_t)Ch);
      O["bytes"] = std::move(B);
    } else if (const auto *DR = dyn_cast<DeclRefExpr>(S)) {
      describeDeclRef(O, DR->getDecl());
    } else if (const auto *ME = dyn_cast<MemberExpr>(S)) {
      O["m"] = ME->getMemberDecl()->getNameAsString();
      O["arrow"] = ME->isArrow();
      if (const auto *FD = dyn_cast<FieldDecl>(ME->getMemberDecl())) {
        O["mk"] = "field";
        O["mrec"] = recordName(dyn_cast<RecordDecl>(FD->getParent()));
        O["bitfield"] = FD->isBitField();
        if (FD->isBitField()) O["bfw"] = (int64_t)FD->getBitWidthValue(Ctx);
      } else if (const auto *MD = dyn_cast<CXXMethodDecl>(ME->getMemberDecl())) {
        O["mk"] = "method";
        O["fn"] = funcKey(MD);
      } else if (const auto *VD = dyn_cast<VarDecl>(ME->getMemberDecl())) {
        O["mk"] = "static";
        O["qn"] = VD->getQualifiedNameAsString();
      }
      defaultKids();
    } else if (const auto *CE = dyn_cast<CallExpr>(S)) {
      describeCallee(O, CE->getDirectCallee());
      if (const auto *OC = dyn_cast<CXXOperatorCallExpr>(CE)) O["op"] = getOperatorSpelling(OC->getOperator());
      if (const auto *MC = dyn_cast<CXXMemberCallExpr>(CE)) {
        if (const Expr *Obj = MC->getImplicitObjectArgument()) O["obj"] = kid(Obj);
        // a call through a qualified name (Base::f()) is not dispatched virtually
        if (const auto *ME = dyn_cast<MemberExpr>(MC->getCallee()->IgnoreParens()))
          if (ME->hasQualifier()) O["virt"] = false;
      }
      O["callee"] = kid(CE->getCallee());
      json::Array Args;
      for (const Expr *A : CE->arguments()) Args.push_back(kid(A));
      O["args"] = std::move(Args);
      defaultKids();
    } else if (const auto *CC = dyn_cast<CXXConstructExpr>(S)) {
      describeCallee(O, CC->getConstructor());
      O["ctor_rec"] = recordName(CC->getConstructor()->getParent());
      O["list_init"] = CC->isListInitialization();
      O["elidable"] = CC->isElidable();
      O["zero_init"] = CC->requiresZeroInitialization();
      O["copy_or_move"] = CC->getConstructor()->isCopyOrMoveConstructor();
      O["default_ctor"] = CC->getConstructor()->isDefaultConstructor();
      O["trivial"] = CC->getConstructor()->isTrivial();
      O["ctor_implicit"] = CC->getConstructor()->isImplicit();
      O["ctor_defaulted"] = CC->getConstructor()->isDefaulted();
      json::Array Args;
      for (const Expr *A : CC->arguments()) Args.push_back(kid(A));
      O["args"] = std::move(Args);
      defaultKids();
    } else if (const auto *BO = dyn_cast<BinaryOperator>(S)) {
      O["op"] = BO->getOpcodeStr().str();
      if (const auto *CA = dyn_cast<CompoundAssignOperator>(BO)) {
        addTypeInfo(O, CA->getComputationLHSType(), "clhs_");
        addTypeInfo(O, CA->getComputationResultType(), "cres_");
      }
      defaultKids();
    } else if (const auto *UO = dyn_cast<UnaryOperator>(S)) {
      O["op"] = UnaryOperator::getOpcodeStr(UO->getOpcode()).str();
      O["postfix"] = UO->isPostfix();
      defaultKids();
    } else if (const auto *CS = dyn_cast<CastExpr>(S)) {
      O["ck"] = CS->getCastKindName();
      if (const auto *EC = dyn_cast<ExplicitCastExpr>(CS)) addTypeInfo(O, EC->getTypeAsWritten(), "w_");
      if (const auto *CF = CS->getConversionFunction()) {
        if (const auto *FD = dyn_cast<FunctionDecl>(CF)) O["conv_fn"] = funcKey(FD);
      }
      defaultKids();
    } else if (const auto *UE = dyn_cast<UnaryExprOrTypeTraitExpr>(S)) {
      O["trait"] = (int64_t)UE->getKind();
      if (UE->isArgumentType())
        addTypeInfo(O, UE->getArgumentType(), "arg_");
      else
        addTypeInfo(O, UE->getArgumentExpr()->getType(), "arg_");
      QualType AT = UE->isArgumentType() ? UE->getArgumentType() : UE->getArgumentExpr()->getType();
      if (const CXXRecordDecl *R = AT.getNonReferenceType()->getAsCXXRecordDecl()) O["arg_rec"] = recordName(R);
      if (!UE->isArgumentType()) Kids.push_back(kid(UE->getArgumentExpr()));
    } else if (const auto *IL = dyn_cast<InitListExpr>(S)) {
      const InitListExpr *Sem = IL->isSemanticForm() ? IL : (IL->getSemanticForm() ? IL->getSemanticForm() : IL);
      O["ninits"] = (int64_t)Sem->getNumInits();
      if (Sem->hasArrayFiller()) O["array_filler"] = kid(Sem->getArrayFiller());
      for (const Expr *I : Sem->inits()) Kids.push_back(kid(I));
    } else if (isa<ImplicitValueInitExpr>(S) || isa<CXXScalarValueInitExpr>(S)) {
      O["value_init"] = true;
    } else if (const auto *DS = dyn_cast<DeclStmt>(S)) {
      json::Array Ds;
      for (const Decl *D : DS->decls()) {
        json::Object DO;
        if (const auto *VD = dyn_cast<VarDecl>(D)) {
          DO["d"] = declId(VD);
          DO["n"] = VD->getNameAsString();
          addTypeInfo(DO, VD->getType());
          DO["is_ref"] = VD->getType()->isReferenceType();
          DO["is_const"] = VD->getType().getNonReferenceType().isConstQualified();
          if (const CXXRecordDecl *R = VD->getType().getNonReferenceType()->getAsCXXRecordDecl())
            DO["rec"] = recordName(R);
          if (const auto *AT = Ctx.getAsConstantArrayType(VD->getType()))
            DO["array_len"] = (int64_t)AT->getSize().getZExtValue();
          DO["init_style"] = (int64_t)VD->getInitStyle();
          DO["static"] = VD->isStaticLocal();
          if (VD->hasInit()) {
            int I = kid(VD->getInit());
            DO["init"] = I;
            Kids.push_back(I);
          }
        } else {
          DO["other"] = D->getDeclKindName();
        }
        Ds.push_back(std::move(DO));
      }
      O["decls"] = std::move(Ds);
    } else if (const auto *IS = dyn_cast<IfStmt>(S)) {
      O["constexpr"] = IS->isConstexpr();
      if (IS->getInit()) O["init"] = kid(IS->getInit());
      if (IS->getConditionVariableDeclStmt()) O["condvar"] = kid(IS->getConditionVariableDeclStmt());
      O["cond"] = kid(IS->getCond());
      O["then"] = kid(IS->getThen());
      if (IS->getElse()) O["else"] = kid(IS->getElse());
      if (IS->isConstexpr() && !IS->getCond()->isValueDependent()) {
        Optional<const Stmt *> Act = IS->getNondiscardedCase(Ctx);
        if (Act) O["taken"] = *Act ? (*Act == IS->getThen() ? "then" : "else") : "none";
      }
    } else if (const auto *FS = dyn_cast<ForStmt>(S)) {
      if (FS->getInit()) O["init"] = kid(FS->getInit());
      if (FS->getCond()) O["cond"] = kid(FS->getCond());
      if (FS->getInc()) O["inc"] = kid(FS->getInc());
      O["body"] = kid(FS->getBody());
    } else if (const auto *WS = dyn_cast<WhileStmt>(S)) {
      O["cond"] = kid(WS->getCond());
      O["body"] = kid(WS->getBody());
    } else if (const auto *DoS = dyn_cast<DoStmt>(S)) {
      O["body"] = kid(DoS->getBody());
      O["cond"] = kid(DoS->getCond());
    } else if (const auto *RF = dyn_cast<CXXForRangeStmt>(S)) {
      O["range"] = kid(RF->getRangeInit());
      O["loopvar"] = kid(RF->getLoopVarStmt());
      O["body"] = kid(RF->getBody());
      // desugared pieces are kept so that CFG elements referring to them resolve
      if (RF->getRangeStmt()) O["range_stmt"] = kid(RF->getRangeStmt());
      if (RF->getBeginStmt()) O["begin_stmt"] = kid(RF->getBeginStmt());
      if (RF->getEndStmt()) O["end_stmt"] = kid(RF->getEndStmt());
      if (RF->getCond()) O["cond"] = kid(RF->getCond());
      if (RF->getInc()) O["inc"] = kid(RF->getInc());
    } else if (const auto *RS = dyn_cast<ReturnStmt>(S)) {
      if (RS->getNRVOCandidate()) O["nrvo"] = true;
      if (RS->getRetValue()) {
        int I = kid(RS->getRetValue());
        O["value"] = I;
        Kids.push_back(I);
      }
    } else if (const auto *TS = dyn_cast<CXXTryStmt>(S)) {
      O["try"] = kid(TS->getTryBlock());
      json::Array H;
      for (unsigned I = 0; I < TS->getNumHandlers(); ++I) H.push_back(kid(TS->getHandler(I)));
      O["handlers"] = std::move(H);
    } else if (const auto *CSx = dyn_cast<CXXCatchStmt>(S)) {
      O["body"] = kid(CSx->getHandlerBlock());
    } else if (const auto *LE = dyn_cast<LambdaExpr>(S)) {
      O["lambda_fn"] = funcKey(LE->getCallOperator());
      F.Lambdas.push_back(LE);
      json::Array Caps;
      for (const LambdaCapture &C : LE->captures()) {
        json::Object CO;
        CO["byref"] = C.getCaptureKind() == LCK_ByRef;
        CO["this"] = C.capturesThis();
        if (C.capturesVariable()) {
          CO["d"] = declId(C.getCapturedVar());
          CO["n"] = C.getCapturedVar()->getNameAsString();
        }
        Caps.push_back(std::move(CO));
      }
      O["captures"] = std::move(Caps);
    } else if (const auto *DA = dyn_cast<CXXDefaultArgExpr>(S)) {
      Kids.push_back(kid(DA->getExpr()));
    } else if (const auto *DI = dyn_cast<CXXDefaultInitExpr>(S)) {
      if (DI->getExpr()) Kids.push_back(kid(DI->getExpr()));
    } else if (const auto *NE = dyn_cast<CXXNewExpr>(S)) {
      addTypeInfo(O, NE->getAllocatedType(), "alloc_");
      defaultKids();
    } else if (const auto *TE = dyn_cast<CXXThrowExpr>(S)) {
      (void)TE;
      defaultKids();
    } else {
      defaultKids();
    }
    O["c"] = std::move(Kids);
    return O;
  }

  void emitFunction(const FunctionDecl *FD) {
    if (!FD || !FD->doesThisDeclarationHaveABody()) return;
    if (FD->isDependentContext() || FD->isInvalidDecl()) return;
    if (FD->getTemplatedKind() == FunctionDecl::TK_FunctionTemplate) return;
    if (!inRepo(FD->getLocation())) return;
    if (FD->isDefaulted() && !FD->getBody()) return;
    const Stmt *Body = FD->getBody();
    if (!Body) return;
    std::string Key = funcKey(FD);
    if (!SeenFuncs.insert(Key).second) return;

    json::Object O;
    O["key"] = Key;
    O["qn"] = FD->getQualifiedNameAsString();
    O["name"] = FD->getNameAsString();
    O["loc"] = locObj(FD->getLocation());
    O["end_line"] = (int64_t)line(FD->getEndLoc());
    O["implicit"] = FD->isImplicit();
    {
      // declared in a header (part of the interface) or only in a source file (file-local helper)
      bool InHeader = false;
      for (const FunctionDecl *RD : FD->redecls()) {
        std::string P = realPath(RD->getLocation());
        if (StringRef(P).endswith(".h") || StringRef(P).endswith(".hpp")) InHeader = true;
      }
      O["in_header"] = InHeader;
    }
    O["defaulted"] = FD->isDefaulted();
    O["noexcept"] = isNoexceptExceptionSpec(FD->getExceptionSpecType()) &&
                    FD->getExceptionSpecType() != EST_NoexceptFalse;
    O["is_template_instantiation"] = FD->isTemplateInstantiation();
    addTypeInfo(O, FD->getReturnType(), "ret_");
    if (const CXXRecordDecl *R = FD->getReturnType()->getAsCXXRecordDecl()) O["ret_rec"] = recordName(R);
    json::Array Ps;
    for (const ParmVarDecl *P : FD->parameters()) {
      json::Object PO;
      PO["d"] = declId(P);
      PO["n"] = P->getNameAsString();
      addTypeInfo(PO, P->getType());
      PO["ref"] = P->getType()->isReferenceType();
      PO["const_ref"] = P->getType()->isReferenceType() && P->getType()->getPointeeType().isConstQualified();
      if (const CXXRecordDecl *R = P->getType().getNonReferenceType()->getAsCXXRecordDecl())
        PO["rec"] = recordName(R);
      Ps.push_back(std::move(PO));
    }
    O["params"] = std::move(Ps);
    {
      json::Object CI;
      describeCallee(CI, FD);
      if (auto *TA = CI.get("targs")) O["targs"] = *TA;
    }
    if (const auto *MD = dyn_cast<CXXMethodDecl>(FD)) {
      O["class"] = recordName(MD->getParent());
      O["const"] = MD->isConst();
      O["virtual"] = MD->isVirtual();
      O["static"] = MD->isStatic();
      O["access"] = accessStr(MD->getAccess());
      O["lambda"] = MD->getParent()->isLambda();
      json::Array Ov;
      for (const CXXMethodDecl *OM : MD->overridden_methods()) Ov.push_back(funcKey(OM));
      O["overrides"] = std::move(Ov);
    }
    FnCtx F;
    if (const auto *CD = dyn_cast<CXXConstructorDecl>(FD)) {
      O["ctor"] = true;
      O["copy_ctor"] = CD->isCopyOrMoveConstructor();
      O["move_ctor"] = CD->isMoveConstructor();
      O["default_ctor"] = CD->isDefaultConstructor();
      json::Array Inits;
      for (const CXXCtorInitializer *I : CD->inits()) {
        json::Object IO;
        IO["written"] = I->isWritten();
        if (I->isAnyMemberInitializer()) {
          IO["field"] = I->getAnyMember()->getNameAsString();
        } else if (I->isBaseInitializer()) {
          const CXXRecordDecl *B = I->getBaseClass()->getAsCXXRecordDecl();
          IO["base"] = B ? recordName(B) : "";
        } else if (I->isDelegatingInitializer()) {
          IO["delegating"] = true;
        }
        IO["init"] = nodeFor(F, I->getInit());
        Inits.push_back(std::move(IO));
      }
      O["inits"] = std::move(Inits);
    }
    O["body"] = nodeFor(F, Body);

    // CFG
    CFG::BuildOptions BO;
    BO.setAllAlwaysAdd();
    BO.AddInitializers = true;
    BO.AddEHEdges = false;
    BO.AddImplicitDtors = false;
    BO.AddTemporaryDtors = false;
    BO.PruneTriviallyFalseEdges = true;
    std::unique_ptr<CFG> G = CFG::buildCFG(FD, const_cast<Stmt *>(Body), &Ctx, BO);
    if (G) {
      json::Object CO;
      CO["entry"] = (int64_t)G->getEntry().getBlockID();
      CO["exit"] = (int64_t)G->getExit().getBlockID();
      json::Array Blocks;
      for (const CFGBlock *B : *G) {
        json::Object BOj;
        BOj["id"] = (int64_t)B->getBlockID();
        json::Array Els;
        for (const CFGElement &E : *B) {
          if (auto SE = E.getAs<CFGStmt>()) {
            Els.push_back(nodeFor(F, SE->getStmt()));
          } else if (auto IE = E.getAs<CFGInitializer>()) {
            json::Object IO;
            const CXXCtorInitializer *I = IE->getInitializer();
            if (I->isAnyMemberInitializer()) IO["init_field"] = I->getAnyMember()->getNameAsString();
            else IO["init_base"] = true;
            IO["init"] = nodeFor(F, I->getInit());
            Els.push_back(std::move(IO));
          }
        }
        BOj["elems"] = std::move(Els);
        if (const Stmt *T = B->getTerminatorStmt()) BOj["term"] = nodeFor(F, T);
        if (const Stmt *TC = B->getTerminatorCondition(false)) BOj["cond"] = nodeFor(F, TC);
        if (const Stmt *Lb = B->getLabel()) BOj["label"] = nodeFor(F, Lb);
        BOj["noreturn"] = B->hasNoReturnElement();
        json::Array Succ;
        for (auto It = B->succ_begin(); It != B->succ_end(); ++It) {
          json::Object SO;
          if (const CFGBlock *R = It->getReachableBlock()) {
            SO["b"] = (int64_t)R->getBlockID();
            SO["reachable"] = true;
          } else if (const CFGBlock *U = It->getPossiblyUnreachableBlock()) {
            SO["b"] = (int64_t)U->getBlockID();
            SO["reachable"] = false;
          } else {
            SO["b"] = nullptr;
            SO["reachable"] = false;
          }
          Succ.push_back(std::move(SO));
        }
        BOj["succs"] = std::move(Succ);
        Blocks.push_back(std::move(BOj));
      }
      CO["blocks"] = std::move(Blocks);
      O["cfg"] = std::move(CO);
    }
    O["nodes"] = std::move(F.Nodes);
    Functions.push_back(std::move(O));
    // lambdas defined inside become functions of their own
    for (const LambdaExpr *LE : F.Lambdas) emitFunction(LE->getCallOperator());
  }

  // ---------------------------------------------------------------- visitor hooks
  bool VisitFunctionDecl(FunctionDecl *FD) {
    emitFunction(FD);
    return true;
  }
  bool VisitCXXRecordDecl(CXXRecordDecl *RD) {
    if (RD->isThisDeclarationADefinition()) emitRecord(RD);
    return true;
  }
  bool VisitEnumDecl(EnumDecl *ED) {
    emitEnum(ED);
    return true;
  }
  bool VisitVarDecl(VarDecl *VD) {
    emitVar(VD);
    return true;
  }
};

struct Consumer : public ASTConsumer {
  std::string Main;
  void HandleTranslationUnit(ASTContext &Ctx) override {
    if (Ctx.getDiagnostics().hasErrorOccurred()) {
      llvm::errs() << "op2facts: parse errors, no facts written\n";
      return;
    }
    Extractor X(Ctx);
    X.TraverseDecl(Ctx.getTranslationUnitDecl());
    json::Object Root;
    Root["unit"] = Main;
    Root["records"] = std::move(X.Records);
    Root["enums"] = std::move(X.Enums);
    Root["vars"] = std::move(X.Vars);
    Root["functions"] = std::move(X.Functions);
    std::error_code EC;
    llvm::raw_fd_ostream OS(OutPath, EC);
    if (EC) {
      llvm::errs() << "op2facts: cannot write " << OutPath << "\n";
      return;
    }
    OS << json::Value(std::move(Root)) << "\n";
  }
};

struct Action : public ASTFrontendAction {
  std::unique_ptr<ASTConsumer> CreateASTConsumer(CompilerInstance &CI, StringRef File) override {
    auto C = std::make_unique<Consumer>();
    C->Main = File.str();
    return C;
  }
};

} // namespace

int main(int argc, const char **argv) {
  auto Opts = CommonOptionsParser::create(argc, argv, Cat);
  if (!Opts) {
    llvm::errs() << llvm::toString(Opts.takeError()) << "\n";
    return 2;
  }
  ClangTool Tool(Opts->getCompilations(), Opts->getSourcePathList());
  int R = Tool.run(newFrontendActionFactory<Action>().get());
  return R == 0 ? 0 : 2;
}

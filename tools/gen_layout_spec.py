#!/usr/bin/env python3
"""Prints a layout description (records, enums, constants) from the current facts, in the shape of spec/layout.json.
Used once to bootstrap the spec, which was then reviewed by hand against DESIGN.md Appendix A / the published
Outpost 2 format notes and frozen. NOT run by any check."""
import json, sys
sys.path.insert(0, '/verif')
from op2.facts import Facts
F = Facts()
RECS = ["OP2Utility::Archive::VolFile::SectionHeader", "OP2Utility::Archive::VolFile::IndexEntry",
        "OP2Utility::Archive::ClmFile::ClmHeader", "OP2Utility::Archive::ClmFile::IndexEntry",
        "OP2Utility::Archive::WaveFormatEx", "OP2Utility::Archive::RiffHeader", "OP2Utility::Archive::FormatChunk",
        "OP2Utility::Archive::ChunkHeader", "OP2Utility::Archive::WaveHeader", "OP2Utility::Tag",
        "OP2Utility::MapHeader", "OP2Utility::Tile", "OP2Utility::TileMapping", "OP2Utility::TerrainType", "OP2Utility::Rect",
        "OP2Utility::Point32", "OP2Utility::Range16", "OP2Utility::BmpHeader", "OP2Utility::ImageHeader", "OP2Utility::Color",
        "OP2Utility::SectionHeader", "OP2Utility::Tileset::TilesetHeader", "OP2Utility::Tileset::PpalHeader",
        "OP2Utility::PaletteHeader", "OP2Utility::ImageMeta", "OP2Utility::ImageMeta::ImageType",
        "OP2Utility::Animation::Frame::LayerMetadata", "OP2Utility::Animation::Frame::Layer", "OP2Utility::Animation::UnknownContainer"]
ENUMS = ["OP2Utility::Archive::CompressionType", "OP2Utility::Archive::VolFile::VolPadding", "OP2Utility::CellType", "OP2Utility::BmpCompression"]
out = {"records": {}, "enums": {}, "constants": {}}
for q in RECS:
    r = F.records[q]
    out["records"][q] = {"size_bytes": r["size_bits"] // 8,
                         "fields": [[f["name"], f["offset_bits"], f["width_bits"]] for f in r["fields"]]}
for q in ENUMS:
    e = F.enums[q]
    out["enums"][q] = {x["name"]: x["value"] for x in e["enumerators"]}
for q, v in sorted(F.vars.items()):
    if "DiscreteColor" in q or "DefaultCopyChunkSize" in q or q.startswith("fixture"):
        continue
    val = v.get("value")
    if v.get("record") == "OP2Utility::Tag" and isinstance(val, dict):
        t = val.get("text")
        chars = t.get("_M_elems") if isinstance(t, dict) else t
        val = "".join(chr(c) for c in chars) if chars else val
    elif isinstance(val, dict) and "_M_elems" in val:
        val = val["_M_elems"]
    out["constants"][q] = val
print(json.dumps(out, indent=1))

#!/usr/bin/env python3
"""Regenerates /verif/MANIFEST.json from the table below (kept in one place so that the list of
claimed properties, their rules and the not_applicable list stay consistent)."""
import json
import os

VERIF = os.path.dirname(os.path.dirname(os.path.abspath(__file__)))

COMMON_NOTE = ("Trusted base: clang 14's parser/Sema/record layout/CFG, the op2facts extractor and the Python rule "
               "engine in /verif/op2; LP64; field-based alias model; std:: callees modelled by a short table. "
               "Nothing is executed. A pass means the listed structural obligations are discharged on the current "
               "source, not that the behaviour was observed. ")

CLAIMED = {
    "C01": {
        "rules": "R-ORDER, R-MUSTCALL, R-SIB, R-ACCT, R-COPYEXT, R-SEQ, R-COUNT",
        "text": "Static analysis of VolFile::CreateArchive and the lookup / extraction path: every refusal (duplicate names, "
                "output names an input, sizes) completes before the output FileWriter is constructed and nothing that can "
                "refuse runs afterwards; the input list is sorted by the checked case-insensitive file-name comparator before "
                "anything is derived, and names / readers / entries are derived by order-preserving loops; Contains and "
                "GetIndex use the same case-blind path equality; recorded header lengths, first block offset and block step "
                "equal the bytes emitted (linear normalisation of the source expressions plus the R4 alignment lemma); block "
                "i is header(size_i) + a copy of input i whose Length() was recorded as size_i and which is untouched before "
                "the copy; member streams and extraction are slices of exactly the recorded block length; the writer emits the "
                "frozen VOL description with kind 'uncompressed'.",
        "note": "Declined: byte equality of extracted content and exact sizes, the 128 KiB chunk boundary, final-path-component "
                "naming inside std::filesystem.",
        "design": "4/C01",
    },
    "C02": {
        "rules": "R-SEQ (writer == frozen description; reader section order), R-LAYOUT, R-NOPAD, R-ACCT, R-MUSTCALL, R-INDEX, R-TAINT, R-COPYEXT",
        "text": "Static analysis of the VOL writer against an independent description (spec/vol.seq.json, spec/layout.json): "
                "section tags, order, the expression feeding each recorded length, packed record layouts incl. the 31-bit "
                "length, compression-kind values; lengths tile the header and blocks are contiguous and 4-aligned (R-ACCT); "
                "entries sorted by the checked comparator. Reader: sections requested in format order with the tag compared; "
                "only whole index entries are read; counting stops at the first unused slot and only used slots need names; "
                "count <= names and count <= entries hold as derived class invariants, so over-long index sections and unused "
                "trailing slots are handled safely; member streams are slices of the block header's length.",
        "note": "Declined: equality of names/sizes/kinds/payloads with an independent encoder's intent (values) - replaced by "
                "agreement with an independent description of the format.",
        "design": "4/C02",
    },
    "C03": {
        "rules": "R-SEQ, R-LAYOUT, R-NOPAD, R-ACCT, R-COPYEXT, R-ORDER, R-MUSTCALL, R-SIB, R-INIT, R-TAINT(loop progress)",
        "text": "Static analysis of the CLM archive code: header + index are written and read in the same shape equal to the "
                "frozen description, records / version string / tags as documented; first data offset = header + index and "
                "step = data length, RIFF size formula; what is stored for member i is Slice(dataLength_i) of the input "
                "positioned at its data chunk (so chunks after the audio data are not stored), streams and extraction are "
                "Slice(dataOffset, dataLength); non-WAV input, differing formats, over-long and duplicate names are refused "
                "before the archive file is opened; inputs sorted by the checked comparator; WaveHeader::Create defines every "
                "field; names zero-filled; the chunk walk's cursor cannot wrap.",
        "note": "Declined: equality of audio bytes and reported lengths with the source chunk (values).",
        "design": "4/C03",
    },
    "C04": {
        "rules": "R-CURSOR(mask form), R-INIT, R-ACCT, R-LAYOUT(format constants and distance classes), R-INDEX, R-MUSTCALL, R-ATOMIC, R-ORDER, R-SEQ",
        "text": "Static analysis of the LZH decoder's structural clauses only: every store to the window write index and to "
                "each match-source index is masked with extent-1 (so every window store / match read is in the 4096-byte "
                "window); the whole window is space-filled by the constructor; fill threshold + longest match fits below the "
                "window size; symbol count, match base and the six distance classes (boundaries, extra bits, upper-bit "
                "formulas, read from the AST) equal the format description; every fetch from the compressed buffer is "
                "dominated by the end-of-stream refusal; the tree's capacity refusal dominates its first store and the "
                "update precedes the code's output; volume extraction writes exactly the (pointer, length) pairs of the "
                "internal-buffer interface until 0. The decoder's output is NOT examined: equality with a reference decoder "
                "and drain-schedule equivalence are declined.",
        "note": "Declined: output equality with a reference, drain-schedule equivalence, read-side window bounds (relational), "
                "termination of the tree walk, the encoder round-trip clause.",
        "design": "4/C04",
    },
    "C05": {
        "rules": "R-INDEX with derived class invariants, R-MUSTCALL, R-GUARD, R-TAINT(raw extents, loop progress), R-COPYEXT, R-FSTREAM, R-NOWRAP",
        "text": "Static analysis of VolFile/ClmFile and the WAV intake: every table subscript reachable from a public entry "
                "point is entailed to be in range by guard facts plus class invariants derived from the constructors' CFGs "
                "(m_Count <= m_IndexEntryCount <= m_IndexEntries.size(), m_Count <= m_StringTable.size(), m_Count == "
                "indexEntries.size()); every per-member call passes the index verifier, which refuses exactly index >= "
                "count; raw (pointer,size) reads are bounded by the addressed extent; the RIFF chunk walk's cursor cannot "
                "wrap (termination); member streams and extractions are slices of exactly the recorded extent made by "
                "the containment-checked slice constructor; the block-header read is preceded by an absolute seek; a "
                "failed read clears the shared stream's error flags on every exit. Necessary conditions of C05 on all "
                "byte strings; whole-program memory safety is not claimed.",
        "note": "Declined: absence of all out-of-bounds accesses (only the listed sink classes), std:: internals, "
                "resource exhaustion, the header-consistency sums of ReadVolHeader and the 32-bit skip in ReadStringTable "
                "(both only lead to ordinary read errors). File lengths are assumed below 2^63.",
        "design": "4/C05",
    },
    "C06": {
        "rules": "R-SEQ (reader == writer == frozen format description), R-LAYOUT, R-NOPAD, R-NARROW, R-SIB, R-WRITESET, R-GUARD, R-CONST, de Bruijn table",
        "text": "Static analysis of the map serialiser pair: Map::Write, Map::ReadMap and spec/map.seq.json yield the same "
                "token tree (every field, order, width, size prefix and the data-dependent condition on the tileset name, "
                "with callees inlined over the resolved call graph); every record written has the documented layout and no "
                "padding; every size prefix and the header's tileset count are range-checked before narrowing; header "
                "fields are rebuilt from / copied to the members of the same meaning and the width goes through the "
                "checked log2 table; each public edit writes exactly the member it names through the same path its "
                "getter reads, with a refusal that is exactly 'value > Tube5'; writing is callable on const maps. These "
                "hold for every map because they are facts about the two serialisers' code, the only place where a "
                "field could be dropped, widened or reordered.",
        "note": "Declined: value equality of the re-read map and byte equality with the input. The format description "
                "was written from the Outpost 2 format notes (DESIGN.md Appendix A) and is the frozen reference that "
                "makes a symmetric drift of reader and writer visible.",
        "design": "4/C06",
    },
    "C07": {
        "rules": "R-TAINT (shift / product / raw-extent sinks), R-WHOCALLS, R-SEQ(container sizing), R-MUSTCALL, R-GUARD, R-SIB",
        "text": "Static analysis of the map / saved-game reader: the file-supplied shift amount is refused at >= 32 before the "
                "header helpers shift by it, the tile count is formed in 64 bits and refused above the helpers' 32-bit result, "
                "the tile-group area is formed in 64 bits, and those helpers have no unguarded caller; every read is the "
                "throwing kind, every unprefixed container is resized to its stored count before it is read, prefixed reads "
                "refuse unsatisfiable sizes; the minimum-version check covers the header tag and both later tags (which must "
                "equal it) on both entry points; name length and marker are checked; raw reads fit their buffers; both entry "
                "points return the map made by ReadMapBeginning without storing into it. Necessary conditions of C07 on all "
                "byte strings; general memory safety is not claimed.",
        "note": "Declined: foreign-memory freedom in general, value equality of saved-game and map-file results, resource exhaustion.",
        "design": "4/C07",
    },
    "C08": {
        "rules": "R-SEQ, R-LAYOUT, R-NOPAD, R-MUSTCALL, R-TAINT(signed sinks), R-ORDER, R-ACCT(pitch law), R-NOWRAP, R-NARROW, R-INIT, R-WRITESET, R-SIB",
        "text": "Static analysis of the indexed-bitmap reader/writer: headers and palette are read and written in the same "
                "order and widths and match the frozen description; record layouts and constants are the documented ones; "
                "every returned bitmap has passed the four validations BitmapFile::Validate itself runs; a validated or "
                "factory-made header has width >= 0 and height != INT32_MIN (must-facts at the exits of Validate/Create), so "
                "no sign-extended pitch, std::abs or negation of INT32_MIN is reachable for loader-returned objects; "
                "allocations are dominated by the header rules; the pitch is (bytes+3)&~3 of (width*depth+7)/8 with a "
                "single source; WritePixels emits per row the meaningful bytes then a zero-filled pad; file-size fields are "
                "range-checked; factory headers come from aggregates naming every field; flipping negates the height once, "
                "writes only height and pixels, and contains no unguarded unsigned subtraction.",
        "note": "Declined: pixel/palette value preservation; the partial-palette count mismatch (documented blind spot); that "
                "flipping twice restores the rows.",
        "design": "4/C08",
    },
    "C09": {
        "rules": "R-SEQ, R-LAYOUT, R-NOPAD, R-MUSTCALL, R-ORDER, R-SIB, R-WHOCALLS, R-ATOMIC(inverse form), R-INIT, R-WRITESET",
        "text": "Static analysis of the tileset loader/saver: writer, reader and the frozen custom-format description agree on "
                "sections, order, widths and on which constant or expression feeds each header; tileset headers, tags and every "
                "header constant the reader does not validate have the documented values; the red/blue exchange is an in-place "
                "std::swap applied exactly once per side and on the saver's own copy; ValidateTileset (with exactly depth 8, "
                "width 32, height multiple of 32) dominates the first write and every return of both load branches; files are "
                "written and returned top-down; section headers are validated before allocation; the detectors touch the stream "
                "only through Peek, which is read-then-inverse-seek; header aggregates name every field.",
        "note": "Declined: that the loaded picture equals the saved one (values); internals of the standard-bitmap branch beyond "
                "'indexed reader then tileset validation'.",
        "design": "4/C09",
    },
    "C10": {
        "rules": "R-SEQ, R-LAYOUT, R-NOPAD, R-MUSTCALL, R-INDEX(strength), R-NARROW, R-INIT, R-ORDER, R-CONST",
        "text": "Static analysis of the PRT serialiser pair: ArtFile::Write, ArtFile::Read and spec/prt.seq.json agree token "
                "for token (including both optional-data conditionals on their own flags and the four optional bytes in "
                "order); every sprite record and tag has the documented layout; every returned ArtFile has passed the "
                "tag, palette-header, image-metadata and count validations, the writer validates before its first write "
                "and refuses a frame whose 7-bit count differs from its layer list; the metadata validation is strict "
                "(palette index < palette count, scan line = width rounded up to 4); red/blue are exchanged exactly once "
                "per side, on a by-value copy when writing; counts are range-checked before narrowing; optional frame "
                "bytes are definitely assigned; Write is callable on const objects.",
        "note": "Declined: equality of the re-read structure and byte stability (values); the arithmetic inside "
                "VerifyCountsMatchHeader / CountFrames.",
        "design": "4/C10",
    },
    "C11": {
        "rules": "R-INDEX, R-GUARD, R-WHOCALLS, R-NOWRAP, R-ORDER, R-TAINT(signed sinks, raw extents), R-MUSTCALL",
        "text": "Static analysis of the picture loaders and the operations applied to what they return: the image-index "
                "verifier refuses exactly index >= count and dominates the subscript; palette indices are strictly bounded at "
                "load time; the sprite palette copy is bounded by its destination; the pixel window is only ever a "
                "bounds-checked slice, computed in 64 bits and created before the allocation of that size; validated and "
                "factory-made headers have width >= 0 and height != INT32_MIN; header validation dominates every "
                "header-sized allocation; every loader read is the throwing kind; raw reads fit their buffers; the scan-line "
                "flip has no unguarded unsigned subtraction. Whole-program memory safety is not claimed.",
        "note": "Declined: all other memory-safety and termination aspects; operations on hand-edited objects; resource exhaustion.",
        "design": "4/C11",
    },
    "C12": {
        "rules": "R-ATOMIC, R-NOWRAP, R-CURSOR, R-COUNT, R-MUSTCALL, R-SEQ(helper lengths)",
        "text": "Static analysis (clang AST + CFG must-dataflow) of the memory and slice readers: every bounds guard "
                "is wrap-free for all 64-bit arguments, every failure exit precedes every state change, every store "
                "to the cursor preserves cursor <= length, each ReadPartial returns/copies/advances by one and the "
                "same count, Peek is read-then-inverse-seek, and the size-prefixed helpers refuse negative and "
                "unsatisfiable sizes before allocating in every instantiated prefix width. These are necessary "
                "conditions of C12 that hold for all inputs because they are facts about every path of the code; "
                "the byte values delivered are not examined.",
        "note": "Declined: value equality of delivered bytes; std::ifstream internals; atomicity of multi-step typed "
                "helpers. NRVO of `return slice;` is assumed (g++/clang always elide it).",
        "design": "4/C12",
    },
    "C13": {
        "rules": "R-OWN, R-CONST(type witnesses), R-WRITESET, R-ORDER, R-ATOMIC, R-MUSTCALL, R-NOWRAP, R-CURSOR",
        "text": "Static analysis of slice creation and reader ownership: no reader class holds a pointer/reference to "
                "another reader or to mutable storage, a slice owns a by-value copy of its wrapped stream and a copied "
                "file reader reopens the file by name (independent positions by construction), archive member streams "
                "are freshly made slices; compile-only witnesses show Slice(start,len) is callable on const parents "
                "while the advancing form is rejected on them; the advancing form creates the (may-throw) slice before "
                "it moves the parent; every slice constructor passes the containment check, whose arithmetic cannot "
                "wrap, and nested / memory slices are constructed with exactly the guarded extent. Necessary structural "
                "conditions of C13 for all arguments and interleavings; backend equivalence is not decided.",
        "note": "Declined: observational equivalence of memory/file/slice backends; byte values. VolFile::OpenStream moves "
                "the archive's own reader (seek to the block header) - invisible to clients because the returned slice "
                "owns a new handle; recorded, not a violation.",
        "design": "4/C13",
    },
    "C14": {
        "rules": "R-CURSOR, R-NOWRAP, R-ATOMIC, R-NARROW, R-COUNT(copy loop), R-OPENMODE, R-SEQ(helper lengths)",
        "text": "Static analysis of the writer classes: the fixed-buffer writer's cursor invariant and wrap-free guards "
                "(including arithmetic handed on to Seek), failure-before-change order, the growing writer's size "
                "arithmetic before resize and its explicit zero fill, the refusal that dominates the size-prefix "
                "narrowing cast in every instantiated prefix width, the one-count-per-iteration shape of the "
                "reader-to-writer copy loop, agreement of typed write/read length expressions, and the complete "
                "decision table of FileWriter::TranslateFlags (16 flag words x file present/absent) extracted from "
                "its CFG and compared with the refusal / truncate / append requirements. Necessary structural "
                "conditions of C14 for all arguments; written bytes are not examined.",
        "note": "Declined: buffer/disk contents after histories; std::ofstream internals beyond the open-mode table; "
                "flag words the property does not describe (neither Truncate nor Append). ios_base flag values are "
                "libstdc++'s (app=1, ate=2, binary=4, in=8, out=16, trunc=32), read back from clang's constant evaluation.",
        "design": "4/C14",
    },
    "C15": {
        "rules": "R-MUSTCALL, R-ATOMIC, R-INDEX (class invariants, linear combination), R-GUARD, R-UNITS (typedef sugar)",
        "text": "Static analysis of the three refusal / consistency clauses of the adaptive Huffman tree that are visible in "
                "the code's shape: the capacity refusal (root count equal to the counters' maximum) dominates the first count "
                "store and no store precedes a throw site; every public operation passes a range verifier that refuses exactly "
                "the out-of-range values before the parameter-derived subscripts, which are entailed in range with "
                "constructor-derived table sizes; a symbol becomes a node position only through the code->leaf map, in the "
                "encoder as in the update. The tree invariants themselves (valid prefix code, sibling property, equality with "
                "a reference) are properties of update histories and are declined.",
        "note": "Declined: validity of the code, shape equality with the reference, the block-leader scan bound, table-derived "
                "indices, encoder/decoder bit-order agreement.",
        "design": "4/C15",
    },
    "C16": {
        "rules": "R-ENUMBITS, R-LAYOUT, R-NOPAD, R-SIB, R-WRITESET, R-ATOMIC, R-MUSTCALL",
        "text": "Static checks on the packed tile record and its accessors: every CellType enumerator is representable "
                "in the 5-bit field as the compiler reads it back (type-level fact from the AST, true for all 32 values at "
                "once), the Tile/TileMapping bit layout and CellType values match the format description, getter and "
                "setter use one member path through the same GetTileIndex(x, y), each setter writes one element of "
                "`tiles` only and refuses out-of-range values before storing, tileset/image indices come from the "
                "mapping entry the tile refers to, the 32-column block index expression has the documented shape, and "
                "the reported dimensions have a single writer fed from the header.",
        "note": "Declined: bijectivity of the index formula and exact coverage of the tile array (arithmetic over all x, y, H).",
        "design": "4/C16",
    },
    "C17": {
        "rules": "R-SIB, R-WHOCALLS, R-MUSTCALL, R-GUARD, R-ORDER (guard facts at each return)",
        "text": "Static analysis of name lookup and resource resolution: membership and index lookup scan the same range "
                "with the same predicate, the case-blind path equality (whose mirror-normalisation shape and per-character "
                "upper-casing are checked); name-taking forms delegate through GetIndex; every per-member call passes the "
                "index verifier, which refuses exactly index >= count; must-facts at each of GetResourceStream's four "
                "returns show rooted paths refused first, the loose file returned before archive access is consulted, "
                "nothing with access disabled, otherwise OpenStream(GetIndex(name)) of the archive whose Contains(name) "
                "held; archives are loaded VOL then CLM; a type listing appends a member only under ExtensionMatches and "
                "!IsDuplicateFilename against the very list being built; a reported containing archive passed Contains.",
        "note": "Declined: directory contents and std::filesystem semantics, regex listings, 'i-th name returns i' "
                "(needs run-time duplicate-freeness).",
        "design": "4/C17",
    },
    "C18": {
        "rules": "R-INIT (field-sensitive definite initialisation), R-NOPAD, R-MUSTCALL(sort first), R-SIB",
        "text": "Definite-initialisation analysis over all seven serialisation paths and the parsers: every value handed to "
                "Writer::Write (found by the same resolved call-graph walk as R-SEQ) is a fully defined object: locals have "
                "every leaf field assigned on every path (dominating stores, reads, aggregate or per-constructor "
                "initialisation), temporaries are fully defined by the constructor actually called, factory results are fully "
                "defined returns, and members of user-constructible serialisable classes (Map, ArtFile) are defined by every "
                "constructor; every function returning a record by value returns a fully defined object; no serialised record "
                "has padding bits; CLM names are zero-filled; every VOL index entry gets its offset; inputs are sorted by the "
                "checked comparator before anything is derived from them. 'No output byte comes from indeterminate memory' is "
                "exactly a definite-initialisation fact, which no finite set of runs can establish.",
        "note": "Declined: path-spelling independence (std::filesystem), the cross-process comparison itself, caller-supplied "
                "container elements, the copy buffer of Writer::Write(Reader&) (shape in C14).",
        "design": "4/C18",
    },
    "C19": {
        "rules": "R-SIB (comparator / key-function / mirror-normalisation shapes), de Bruijn table check",
        "text": "Shape analysis on clang's resolved AST of the helpers whose laws callers rely on: the case-insensitive "
                "'comes before' is a lexicographic comparison in which both operands of every element comparison pass "
                "through the same key function on the same index, with both strict decisions and a strict length "
                "tie-break (the shape that implies a strict weak order whose incomparability is key equality); equality "
                "uses the same key; the archive comparator applies one projection to both paths; the duplicate scan "
                "visits every adjacent pair; path equality is N(a) == N(b) with mirror-image normalisation; extension "
                "matching upper-cases both sides; the upper-casing helper maps every character; the log2 table and "
                "multiplier read from the AST form a de Bruijn indexing in 32-bit arithmetic. An unrecognised rewrite "
                "is reported as analysis-broken (exit 2), never as a violation.",
        "note": "Declined: the laws themselves over all strings, std::filesystem round trips, bytes >= 0x80 through a "
                "signed char, exhaustive exactness of IsPowerOf2.",
        "design": "4/C19",
    },
    "C20": {
        "rules": "R-NARROW (width domain + dominating refusal), R-ORDER, R-WRITESET, R-MUSTCALL",
        "text": "Static analysis of every narrowing conversion on the writers' serialisation paths: each explicit cast, "
                "bit-field store and narrow accumulation is dominated by a refusal bounding the value by the destination's "
                "capacity (clang CFG must-dataflow + bit-width domain + linear consequence for guarded sums). Volumes: "
                "member size refused above the 31-bit block length before it is recorded, the recorded field is the only "
                "thing written as block length, offsets accumulated in 64 bits and refused above 32, every refusal "
                "precedes construction of the output FileWriter and nothing that can refuse runs after it. CLM: data "
                "offsets, member count, names longer than the 8-byte field. Size prefixes in every instantiated width. "
                "Frames: layer-count mismatch refused before the first write. The implication 'does not fit => error' is "
                "a dominance fact on every path; the guards' antecedents are never reached by the test-suite.",
        "note": "Declined: running with real multi-GiB inputs; VOL name/index section lengths beyond 2^31 bytes (not in "
                "the property's list). The int32 IndexEntry::fileSize is treated as 31 value bits only after the "
                "single-guarded-store obligations are discharged.",
        "design": "4/C20",
    },
}

PENDING_REASON = "check not built yet in this revision (planned: DESIGN.md section 4 lists the structural clauses); not claimed until its rules run clean on the tree"


def main():
    props = [json.loads(l) for l in open(os.path.join(VERIF, "properties.jsonl"))]
    checks = []
    na = []
    for p in props:
        pid = p["id"]
        c = CLAIMED.get(pid)
        if not c:
            na.append({"property_id": pid, "reason": PENDING_REASON})
            continue
        checks.append({
            "property_id": pid,
            "quick_cmd": "./check %s --tier quick" % pid,
            "thorough_cmd": "./check %s --tier thorough" % pid,
            "evidence_file": "/verif/evidence/%s.json" % pid,
            "replay_cmd_template": "./check %s --replay {path}" % pid,
            "engine": "op2facts+op2rules",
            "level_claimed": {"category": "other", "text": c["text"], "design_ref": "DESIGN.md section " + c["design"]},
            "level_note": COMMON_NOTE + c["note"],
            "technique": "static analysis: custom clang-14 LibTooling AST/CFG/record-layout facts + rule engine (%s)" % c["rules"],
        })
    m = {
        "version": 1,
        "setup_cmd": "make -C /verif setup",
        "hooks": {
            "guard": "OP2UTILITY_VERIF",
            "enable": "none needed: the checks read /repo's sources through clang and instrument nothing; no source commit uses the guard",
            "baseline_off_cmd": "make -C /repo -j16 && make -C /repo -k check",
            "source_commits": [],
            "add_only": True,
        },
        "engines": [
            {"name": "op2facts", "path": "/verif/tools/op2facts/op2facts.cc",
             "serves_properties": sorted(CLAIMED),
             "kind_free_text": "clang-14 LibTooling extractor: record layouts, constants, resolved call sites, statement trees and CFGs of every function under /repo/src, one JSON per translation unit of the makefile's compile commands"},
            {"name": "op2rules", "path": "/verif/op2",
             "serves_properties": sorted(CLAIMED),
             "kind_free_text": "Python rule engine: context-sensitive forward must-dataflow of guard facts over the CFGs, write-set / may-throw summaries over the resolved call graph, bit-width domain, class-invariant inference, per-property rule instances with floors"},
        ],
        "checks": checks,
        "not_applicable": na,
        "notes": "Technique family: static analysis only. exit 0 = all obligations discharged; exit 1 + VIOLATION line = an obligation failed that is not a listed known finding; exit 2 = analysis broken (parse failure, vanished anchor, instance count below 60% of the count confirmed on the reviewed tree). Known findings: /verif/known_findings.json.",
    }
    with open(os.path.join(VERIF, "MANIFEST.json"), "w") as fh:
        json.dump(m, fh, indent=1)
    print("claimed:", sorted(CLAIMED), "not_applicable:", len(na))


if __name__ == "__main__":
    main()

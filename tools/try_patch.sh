#!/bin/bash
# usage: tools/try_patch.sh <patch-file> [-R] -- <prop> [<prop>...]
# Applies a patch to /repo's working tree, runs the named checks without touching evidence, and restores the tree.
set -u
patch="$1"; shift
rev=""
if [ "${1:-}" = "-R" ]; then rev="-R"; shift; fi
[ "${1:-}" = "--" ] && shift
cd /verif
patch=$(realpath "$patch"); if ! git -C /repo apply $rev "$patch"; then echo "PATCH-DOES-NOT-APPLY $patch"; exit 3; fi
# restore /repo however this script ends (also when its output is piped into `head` and the pipe closes early)
trap 'git -C /repo checkout -- . ' EXIT
trap '' PIPE
rc=0
for p in "$@"; do
  out=$(./check "$p" --no-evidence 2>&1); c=$?
  echo "== $p exit=$c"
  echo "$out" | grep -E "violated:|required:|found:|ANALYSIS-BROKEN|VIOLATION|KNOWN" | head -${LINES_MAX:-12}
  [ $c -ne 0 ] && rc=$c
done
git -C /repo checkout -- . 
exit $rc

#!/bin/bash
# usage: tools/confirm_seed.sh <worktree> <seed-dir>   (seed-dir holds patch.diff, demo.cpp, meta.json)
# Confirms in a scratch worktree that the seeded change compiles, passes the 141 tests, and that the demo
# fails with it and passes without it. Prints one CONFIRMED / REJECTED line.
wt="$1"; sd="$(realpath "$2")"; name=$(basename "$sd")
cd "$wt" || exit 2
git checkout -q -- . ; git clean -fdq src 2>/dev/null
log="$sd/confirm.log"; : > "$log"
build_demo() { g++ -std=c++17 -I"$wt/src" -I"$wt/include" "$sd/demo.cpp" "$wt/libOP2Utility.a" -lstdc++fs -lpthread -o "$wt/demo_$name" >>"$log" 2>&1; }
run_demo() { ( cd "$wt" && mkdir -p demo_run_$name && cd demo_run_$name && timeout 120 "$wt/demo_$name" >>"$log" 2>&1 ); }
echo "== baseline build" >>"$log"
make -j16 >>"$log" 2>&1 || { echo "REJECTED $name: baseline build failed"; exit 1; }
build_demo || { echo "REJECTED $name: demo does not compile on baseline"; exit 1; }
echo "== baseline demo" >>"$log"; run_demo; base=$?
git apply "$sd/patch.diff" >>"$log" 2>&1 || { echo "REJECTED $name: patch does not apply"; git checkout -q -- .; exit 1; }
echo "== patched build" >>"$log"
make -j16 >>"$log" 2>&1 || { echo "REJECTED $name: patched build failed"; git checkout -q -- .; exit 1; }
echo "== patched tests" >>"$log"
make -k check >"$sd/confirm.tests.log" 2>&1; tests=$?
passed=$(grep -c "^\[       OK \]" "$sd/confirm.tests.log")
build_demo || { echo "REJECTED $name: demo does not compile with patch"; git checkout -q -- .; exit 1; }
echo "== patched demo" >>"$log"; run_demo; pat=$?
git checkout -q -- . ; rm -rf "$wt/demo_$name" "$wt/demo_run_$name"
tail -3 "$sd/confirm.tests.log" >> "$log"; rm -f "$sd/confirm.tests.log"
if [ $base -eq 0 ] && [ $pat -ne 0 ] && [ $tests -eq 0 ] && [ "$passed" = "141" ]; then echo "CONFIRMED $name: baseline demo exit=0, patched demo exit=$pat, tests passed=$passed"; exit 0; fi
echo "REJECTED $name: baseline demo exit=$base patched demo exit=$pat tests exit=$tests passed=$passed"; exit 1

#!/usr/bin/env python3
"""mkmut.py <name> <file-relative-to-repo> <old> <new> [<file2> <old2> <new2> ...]: records a one-edit mutation of /repo as mutations/<name>.patch."""
import subprocess, sys, os
name = sys.argv[1]
args = sys.argv[2:]
assert len(args) % 3 == 0
for i in range(0, len(args), 3):
    f, old, new = args[i:i+3]
    p = os.path.join("/repo", f)
    s = open(p).read()
    old = old.encode().decode("unicode_escape"); new = new.encode().decode("unicode_escape")
    if s.count(old) != 1:
        print("pattern occurs %d times in %s" % (s.count(old), f)); subprocess.run(["git", "-C", "/repo", "checkout", "--", "."]); sys.exit(1)
    open(p, "w").write(s.replace(old, new))
d = subprocess.run(["git", "-C", "/repo", "diff"], capture_output=True, text=True).stdout
subprocess.run(["git", "-C", "/repo", "checkout", "--", "."])
open(os.path.join("/verif/mutations", name + ".patch"), "w").write(d)
print("wrote mutations/%s.patch (%d lines)" % (name, len(d.splitlines())))

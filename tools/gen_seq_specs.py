#!/usr/bin/env python3
"""Bootstrap helper (NOT run by any check): prints the writers' token sequences in the shape of spec/*.seq.json.
The committed spec files were produced with it once, reviewed against DESIGN.md Appendix A and frozen."""
import sys, json
sys.path.insert(0, '/verif')
from op2.facts import Facts
from op2.props.seqdefs import writers
from op2.rules_seq import Tracer, normalise
F = Facts()
for name, (fn, st, roots) in writers(F).items():
    t = Tracer(F, roots)
    toks = normalise(t.trace(fn, st), keep_src=True)
    json.dump({"format": name, "writer": fn.qn, "tokens": toks}, open('/verif/spec/%s.seq.json' % name, 'w'), indent=1)
    print(name, t.sites)

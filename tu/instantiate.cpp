// Verif-side translation unit (never added to /repo): forces instantiation of the exported
// templates with the argument types the rules reason about, so that rules over template
// bodies see concrete types. Compiled with the library's own flags; nothing is run.
#include "OP2Utility.h"
#include "../src/Stream/DynamicMemoryWriter.h"
#include <cstdint>
#include <string>
#include <vector>

namespace OP2Utility::Stream {
template class SliceReader<FileReader>;

template void Reader::Read<int8_t, std::vector<uint8_t>>(std::vector<uint8_t>&);
template void Reader::Read<uint8_t, std::vector<uint8_t>>(std::vector<uint8_t>&);
template void Reader::Read<int16_t, std::vector<uint8_t>>(std::vector<uint8_t>&);
template void Reader::Read<uint16_t, std::vector<uint8_t>>(std::vector<uint8_t>&);
template void Reader::Read<int32_t, std::vector<uint8_t>>(std::vector<uint8_t>&);
template void Reader::Read<uint32_t, std::vector<uint8_t>>(std::vector<uint8_t>&);
template void Reader::Read<int64_t, std::vector<uint8_t>>(std::vector<uint8_t>&);
template void Reader::Read<uint64_t, std::vector<uint8_t>>(std::vector<uint8_t>&);
template void Reader::Read<uint32_t, std::string>(std::string&);
template void Reader::Read<int32_t, std::string>(std::string&);

template void Writer::Write<uint8_t, std::vector<uint8_t>>(const std::vector<uint8_t>&);
template void Writer::Write<int8_t, std::vector<uint8_t>>(const std::vector<uint8_t>&);
template void Writer::Write<uint16_t, std::vector<uint8_t>>(const std::vector<uint8_t>&);
template void Writer::Write<int16_t, std::vector<uint8_t>>(const std::vector<uint8_t>&);
template void Writer::Write<uint32_t, std::vector<uint8_t>>(const std::vector<uint8_t>&);
template void Writer::Write<int32_t, std::vector<uint8_t>>(const std::vector<uint8_t>&);
template void Writer::Write<uint64_t, std::vector<uint8_t>>(const std::vector<uint8_t>&);
template void Writer::Write<uint32_t, std::string>(const std::string&);
template void Writer::Write<uint8_t, std::string>(const std::string&);

template void Writer::Write<Writer::DefaultCopyChunkSize>(Reader&);
template void Writer::Write<1>(Reader&);
template void Writer::Write<4096>(Reader&);
}
